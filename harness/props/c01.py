"""C01 — VCF/BCF to VCF Zarr conversion preserves every record and every field value."""
import pathlib
import shutil

import common
import convlib
import vcfgen
import vczspec

ID = "C01"
LEAN_MODULES = ["B2Z.Props.C01"]
THEOREMS = [
    "B2Z.Rows.C01_float_bits_exact", "B2Z.Rows.C01_float_missing_fill", "B2Z.Rows.C01_float_sentinels",
    "B2Z.Rows.C01_rows_no_truncation", "B2Z.Rows.C01_string_row",
    "B2Z.Pipe.splitBy_flatten", "B2Z.Pipe.icfOf_all", "B2Z.Pipe.C01_pipeline_refines_spec",
    "B2Z.Pipe.C03_config_invariant", "B2Z.Pipe.C03_max_chunks_prefix", "B2Z.Pipe.C02_chunk_grid_complete",
    "B2Z.Fixed.C01_alleles_roundtrip", "B2Z.Fixed.C01_alleles_error_iff", "B2Z.Fixed.lookup_eq_some_iff", "B2Z.Fixed.lookup_eq_none_iff",
    "B2Z.Fixed.C01_filter_row", "B2Z.Fixed.C01_filter_error", "B2Z.Fixed.C01_filter_roundtrip", "B2Z.Fixed.C01_contig_roundtrip",
    "B2Z.Fixed.C01_contig_declared", "B2Z.Fixed.C01_genotype_roundtrip", "B2Z.Fixed.C01_genotype_error_iff",
    "B2Z.Fixed.C01_genotype_absent", "B2Z.Fixed.C01_mask_iff",
]
ASSUMPTIONS = [
    "PARTIAL: VCF/BCF parsing (htslib/cyvcf2), BGZF and the zarr/Blosc byte encodings are outside the model: the model starts at the per-record column values and ends at decoded arrays; the text->value conventions are stated in harness/vczspec.py and validated on every run",
    "the explode partitions tile the records (C04) and the worker pool runs every task (C14)",
    "per-type row encoders (sanitise_*) are modelled in Model/Encode.lean (C10); here `enc` is arbitrary",
]
RULE = ("generated rich VCFs (every Type x Number for INFO and FORMAT, missingness patterns, int/float edge values, ploidy 1..3, "
        "0..3 filters, duplicate positions, symbolic ALT with END, records lacking GT) in three containers (vcf.gz+tbi, vcf.gz+csi, "
        "bcf+csi); non-trivial = file with >= 2 records and at least one INFO or FORMAT field")
LEVEL_TEXT = ("Lean: for one column and every configuration (explode tiling, flush schedule, encode partitioning, chunk size, chunk "
              "cap, execution order of encode partitions) the array read back equals the row encoder applied to the records, row by "
              "row (C01_pipeline_refines_spec), composed from the proved writer/reader (C08), partition cover (C11) and buffered-"
              "write (C16) lemmas; the row encoders of float and string fields are bit exact (Rows.*) and those of the fixed fields "
              "(alleles, id + mask, filters, contig, genotype + mask + phased) are lossless with exactly the real error branches "
              "(Fixed.C01_*_roundtrip, *_error_iff). PARTIAL: parsing and byte codecs are outside the model. Tied to the code by (1) driving the "
              "pipeline model with the real configuration and comparing a column, and feeding Model/FixedFields with the real intermediate "
              "values of every record and comparing every fixed-field row of the real store, (2) comparing every array, dtype, shape and "
              "attribute of real conversions with an independent oracle computed from the abstract records, across containers "
              "and index types.")
LEVEL_NOTE = "Trusted: Lean kernel + standard axioms; htslib/cyvcf2 conventions and codecs assumed (validated per run by the oracle); C04/C14 provide the tiling and the task execution."
TECHNIQUE = "Lean 4 refinement theorem (pipeline = spec) composed from C08/C11/C16 lemmas + differential oracle over generated VCF/BCF inputs"

KINDS = ["vcf.gz+tbi", "vcf.gz+csi", "bcf+csi", "vcf.gz+tbi0"]     # tbi0: old-style tabix index without record counts


def convert_and_compare(ctx, spec, work, tag, kinds=KINDS, label="generated", **opts):
    from bio2zarr import vcf2zarr
    exp = vczspec.expected_store(spec)
    stores = {}
    nontrivial = len(spec["records"]) >= 2 and (len(spec["infos"]) + len(spec["formats"]) > 0)
    for kind in kinds:
        inp = {"vcf_spec": spec, "kind": kind, "label": label}
        ctx.case((tag, kind, repr(spec["records"])[:3000]), nontrivial)
        ctx.count(kind)
        try:
            path = vcfgen.materialise(spec, pathlib.Path(work) / f"{tag}_{kind.replace('+', '_').replace('.', '_')}", kind,
                                      block_size=ctx.rng.choice([400, 0xFF00]))
        except Exception as e:  # noqa: BLE001
            raise common.Infra(f"could not materialise {kind}: {e!r}")
        out = pathlib.Path(work) / f"{tag}_{kind[:3]}_{kind[-4:].replace('+', '')}.zarr"
        shutil.rmtree(out, ignore_errors=True)
        try:
            vcf2zarr.convert([path], out, worker_processes=0, **opts)
        except Exception as e:  # noqa: BLE001
            ctx.violate(f"conversion of a well-formed {kind} failed ({label}): {type(e).__name__}: {str(e)[:200]}", inp, "success", repr(e)[:300])
            continue
        got, attrs = vczspec.read_store(out)
        diffs = vczspec.compare_store(exp, got, check_dims=False)
        for name, what, e, g in diffs[:3]:
            ctx.violate(f"{kind} ({label}): array {name}: {what}: stored {str(g)[:120]} but the input says {str(e)[:120]}",
                        {**inp, "array": name}, e, g)
        # header carried over: every input header line is in the attribute (htslib may reorder / add lines)
        hdr_in = vcfgen.header_text(spec).strip().splitlines()
        hdr_out = str(attrs.get("vcf_header", "")).strip().splitlines()
        lost = [l for l in hdr_in if l not in hdr_out and not l.startswith("##fileformat")]
        if kind.startswith("vcf") and lost:
            ctx.violate(f"{kind}: vcf_header attribute lost header line {lost[0][:80]}", inp, lost[0], "absent")
        if not hdr_out or not hdr_out[-1].startswith("#CHROM") or hdr_out[-1].split("\t")[9:] != spec["samples"]:
            ctx.violate(f"{kind}: vcf_header attribute missing, truncated or with other samples", inp, hdr_in[-1], str(hdr_out[-1:])[:80])
        stores[kind] = got
        ctx.traces += 1
        shutil.rmtree(out, ignore_errors=True)
    # container / index independence
    ks = list(stores)
    for k in ks[1:]:
        d = vczspec.compare_store(stores[ks[0]], stores[k], check_dims=True, ignore=())
        for name, what, e, g in d[:2]:
            ctx.violate(f"stored values depend on the container/index: {ks[0]} vs {k}: array {name}: {what}",
                        {"vcf_spec": spec, "kinds": [ks[0], k], "array": name}, e, g)
    if nontrivial and stores:
        r = spec["records"][0]
        ctx.sample({"records": len(spec["records"]), "samples": len(spec["samples"]), "infos": [f["id"] for f in spec["infos"]],
                    "formats": [f["id"] for f in spec["formats"]], "first_record": vcfgen.record_text(spec, r).strip()[:300]}, limit=3)


def tiny_contigs_case(ctx, work):
    """many contigs, large ones interleaved with contigs of one or two records, file over many BGZF blocks, several explode
    partitions, indexes with and without per-contig record counts: every record must reach the store"""
    from bio2zarr import vcf2zarr
    rng = ctx.rng
    spec = vcfgen.simple_file(rng, nrec=260, ncontig=7, samples=0, unused_contigs=False, span=400_000)
    tiny = set(rng.sample(range(1, 6), 3))
    kept, seen = [], {}
    for r in spec["records"]:
        seen[r["contig"]] = seen.get(r["contig"], 0) + 1
        if r["contig"] not in tiny or seen[r["contig"]] <= rng.choice([1, 2, 3]):
            kept.append(r)
    spec["records"] = kept
    exp = vczspec.expected_store(spec)
    for kind in ("vcf.gz+tbi", "vcf.gz+tbi0", "vcf.gz+csi"):
        path = vcfgen.materialise(spec, pathlib.Path(work) / f"tiny_{kind[-4:].replace('+', '')}", kind, block_size=rng.choice([150, 250]))
        for parts in rng.sample([2, 3, 4, 5, 6, 8], 2 if not ctx.thorough else 5):
            icf, out = pathlib.Path(work) / "tiny.icf", pathlib.Path(work) / "tiny.zarr"
            inp = {"vcf_spec": spec, "kind": kind, "explode_partitions_requested": parts, "tiny_contigs": sorted(tiny)}
            ctx.case(("tiny contigs", kind, parts, len(kept)), True)
            ctx.count("tiny_contig_cases")
            try:
                convlib.explode(icf, [path], partitions=parts)
                shutil.rmtree(out, ignore_errors=True)
                vcf2zarr.encode(icf, out, worker_processes=0)
            except Exception as e:  # noqa: BLE001
                ctx.violate(f"conversion of a well-formed {kind} with {parts} explode partitions failed: {type(e).__name__}: {str(e)[:200]}",
                            inp, "success", repr(e)[:300])
                continue
            got, _ = vczspec.read_store(out)
            for name, what, e, g in vczspec.compare_store(exp, got, check_dims=False)[:2]:
                ctx.violate(f"{kind}, {parts} explode partitions: array {name}: {what}: stored {str(g)[:120]} but the input says {str(e)[:120]}",
                            {**inp, "array": name}, e, g)
            shutil.rmtree(out, ignore_errors=True)
            shutil.rmtree(icf, ignore_errors=True)


def pipeline_model_case(ctx, spec, work, tag):
    """the Lean pipeline model driven with the real configuration of a real conversion (variant_position column)"""
    if not ctx.driver_ok:
        return
    import json
    import sys
    import zarr
    rng = ctx.rng
    path = vcfgen.materialise(spec, pathlib.Path(work) / f"{tag}_pm", rng.choice(["vcf.gz+tbi", "vcf.gz+tbi0"]), block_size=rng.choice([150, 300]))
    icf = pathlib.Path(work) / f"{tag}_pm.icf"
    out = pathlib.Path(work) / f"{tag}_pm.zarr"
    ccs = rng.choice([0.0001, 0.001, 16])
    n = len(spec["records"])
    chunk = rng.choice([1, 2, 3, max(1, n // 2), n + 1])
    eparts = rng.choice([1, 2, 3, 7])
    cap = rng.choice([None, None, 1, 2])
    try:
        convlib.explode(icf, [path], partitions=rng.choice([1, 3, 6, 12]), column_chunk_size=ccs)
        s = convlib.encode(icf, out, partitions=eparts, order=rng, variants_chunk_size=chunk, max_variant_chunks=cap)
        meta = json.loads((icf / "metadata.json").read_text())
        got = [int(x) for x in zarr.open(str(out), mode="r")["variant_position"][:]]
    except Exception as e:  # noqa: BLE001
        ctx.violate(f"distributed conversion failed: {type(e).__name__}: {e}", {"vcf_spec": spec}, "store", repr(e)[:200])
        return
    from bio2zarr import vcf2zarr
    try:
        store = vcf2zarr.IntermediateColumnarFormat(icf)
        vals = [int(v[0]) for v in store.fields["POS"].values]
        sizes = [sys.getsizeof(v) for v in store.fields["POS"].values]
    except Exception as e:  # noqa: BLE001
        ctx.violate(f"the intermediate store of a successful conversion cannot be read back: {type(e).__name__}: {e}",
                    {"vcf_spec": spec, "column_chunk_size_MiB": ccs}, "values", repr(e)[:200])
        return
    q = {"op": "pipe.run", "vals": vals, "explode_parts": [p["num_records"] for p in meta["partitions"]], "sizes": sizes,
         "max_bytes": int(ccs * 2**20), "chunk": chunk, "encode_parts": eparts}
    if cap is not None:
        q["max_chunks"] = cap
    m = ctx.driver.ask(q)
    model_rows = [x for x in m if x is not None]
    ctx.case(("pipe", tag, chunk, eparts, cap), True)
    ctx.count("pipeline_model")
    if model_rows != got:
        ctx.disagree("variant_position differs from Model.Pipe.pipeline under the real configuration",
                     {"vcf_spec": spec, "config": {k: v for k, v in q.items() if k not in ("vals", "sizes", "op")}}, model_rows[:30], got[:30])
    fixed_fields_case(ctx, spec, store, out, len(got))
    shutil.rmtree(out, ignore_errors=True)
    shutil.rmtree(icf, ignore_errors=True)


def fixed_fields_case(ctx, spec, store, out, nrows):
    """Model/FixedFields row encoders fed with the real intermediate values of every record, against the real arrays"""
    import zarr
    root = zarr.open(str(out), mode="r")
    declared_f = [str(x) for x in root["filter_id"][:]]
    declared_c = [str(x) for x in root["contig_id"][:]]
    cols = {n: list(store.fields[n].iter_values(0, nrows)) for n in ("REF", "ALT", "ID", "FILTERS", "CHROM")}
    has_gt = "FORMAT/GT" in store.fields and "call_genotype" in root
    if has_gt:
        cols["GT"] = list(store.fields["FORMAT/GT"].iter_values(0, nrows))
        gt_a, gm_a, gp_a = root["call_genotype"][:], root["call_genotype_mask"][:], root["call_genotype_phased"][:]
    al_a, id_a, idm_a = root["variant_allele"][:], root["variant_id"][:], root["variant_id_mask"][:]
    fl_a, ct_a = root["variant_filter"][:], root["variant_contig"][:]
    w = al_a.shape[1]
    reqs, exp = [], []
    for i in range(nrows):
        reqs.append({"op": "fixed.alleles", "w": w, "ref": str(cols["REF"][i][0]), "alt": [str(x) for x in cols["ALT"][i]]})
        exp.append(("variant_allele", i, [str(x) for x in al_a[i]]))
        reqs.append({"op": "fixed.id", "id": None if cols["ID"][i] is None else str(cols["ID"][i][0])})
        exp.append(("variant_id(+mask)", i, [str(id_a[i]), bool(idm_a[i])]))
        reqs.append({"op": "fixed.filters", "declared": declared_f, "present": [str(x) for x in cols["FILTERS"][i]]})
        exp.append(("variant_filter", i, [bool(x) for x in fl_a[i]]))
        reqs.append({"op": "fixed.contig", "declared": declared_c, "chrom": str(cols["CHROM"][i][0])})
        exp.append(("variant_contig", i, int(ct_a[i])))
        if has_gt:
            v = cols["GT"][i]
            reqs.append({"op": "fixed.gt", "w": gt_a.shape[2], "samples": gt_a.shape[1], "value": None if v is None else [[int(x) for x in r] for r in v]})
            exp.append(("call_genotype(+mask,+phased)", i, {"gt": [[int(x) for x in r] for r in gt_a[i]],
                                                            "mask": [[bool(x) for x in r] for r in gm_a[i]],
                                                            "phased": [bool(x) for x in gp_a[i]]}))
    res = ctx.driver.ask_many(reqs)
    bad = 0
    for q, (name, i, e), m in zip(reqs, exp, res):
        ctx.count("fixed_field_rows")
        if m != e:
            bad += 1
            if bad <= 3:
                ctx.disagree(f"{name} row {i} differs from Model.Fixed ({q['op']})", {"vcf_spec": spec, "request": q}, m, e)
    ctx.case(("fixed", nrows, repr(reqs)[:3000]), True)


def encoder_grid(ctx):
    """real sanitise_value_float_1d / _2d / string_1d vs Model.Rows, bit patterns compared"""
    import numpy as np
    from bio2zarr.vcf2zarr import icf
    rng = ctx.rng
    pool = [0x00000000, 0x80000000, 0x3F800000, 0x7F800000, 0xFF800000, 0x7F800001, 0x7F800002, 0x7FC00000, 0xFFC00000, 0x7F800003,
            0x00000001, 0x007FFFFF, 0x7F7FFFFF, 0x3EAAAAAB, 0x42F6E979]
    reqs, reals, inps = [], [], []
    for _ in range(500 if ctx.thorough else 150):
        w = rng.choice([1, 2, 3, 5])
        kind = rng.choice(["float1d", "float2d", "str1d"])
        if kind == "float1d":
            val = None if rng.random() < 0.15 else [rng.choice(pool) for _ in range(rng.choice([1, 1, 2, 3, 5, 6]))]
            buff = np.zeros((2, w), dtype="f4")
            try:
                icf.sanitise_value_float_1d(buff, 0, None if val is None else np.array(val, dtype=np.uint32).view(np.float32))
                real = buff[0].view(np.uint32).tolist()
            except Exception:  # noqa: BLE001
                real = "error"
            q = {"op": "rows.float1d", "w": w, "value": val}
        elif kind == "float2d":
            ns = rng.choice([1, 2, 3])
            k = rng.choice([1, 2, 3, 5, 6])
            val = None if rng.random() < 0.15 else [[rng.choice(pool) for _ in range(k)] for _ in range(ns)]
            buff = np.zeros((2, ns, w), dtype="f4")
            try:
                icf.sanitise_value_float_2d(buff, 0, None if val is None else np.array(val, dtype=np.uint32).view(np.float32))
                real = buff[0].view(np.uint32).tolist()
            except Exception:  # noqa: BLE001
                real = "error"
            q = {"op": "rows.float2d", "w": w, "samples": ns, "value": val}
        else:
            val = None if rng.random() < 0.15 else [rng.choice(["a", "bc", ".", "", "xyz"]) for _ in range(rng.choice([1, 2, 3, 5, 6]))]
            buff = np.full((2, w), "?", dtype="O")
            try:
                icf.sanitise_value_string_1d(buff, 0, None if val is None else np.array(val, dtype="O"))
                real = [str(x) for x in buff[0]]
            except Exception:  # noqa: BLE001
                real = "error"
            q = {"op": "rows.str1d", "w": w, "value": val}
        reqs.append(q)
        reals.append(real)
        inps.append({"encoder": kind, "width": w, "value": val})
    models = ctx.driver.ask_many(reqs) if ctx.driver_ok else [None] * len(reqs)
    for inp, real, m in zip(inps, reals, models):
        v = inp["value"]
        ctx.case(("row", inp["encoder"], inp["width"], repr(v)), v is not None)
        ctx.count("row_encoder_" + inp["encoder"])
        if m is not None and m != real:
            ctx.disagree(f"sanitise_value_{inp['encoder']} differs from Model.Rows", inp, m, real)
        # the statement: non-NaN floats bit-exact and in place; strings in place; missing / fill sentinels
        if inp["encoder"] == "float1d" and v is not None and len(v) <= inp["width"] and real != "error":
            for i, b in enumerate(v):
                nan = (b >> 23) & 0xFF == 0xFF and b & 0x7FFFFF
                if not nan and real[i] != b:
                    ctx.violate(f"float bit pattern {b:#010x} stored as {real[i]:#010x}", inp, b, real[i])
            if any(x != 0x7F800002 for x in real[len(v):]):
                ctx.violate(f"short float vector not padded with the fill sentinel: {real}", inp, "fill", real)
        if v is None and real != "error":
            flat = real if not isinstance(real[0], list) else [x for r in real for x in r]
            want = "." if inp["encoder"] == "str1d" else 0x7F800001
            if any(x != want for x in flat):
                ctx.violate(f"absent value not stored as the missing sentinel: {real}", inp, want, real)


def run(ctx):
    encoder_grid(ctx)
    work = common.scratch_dir("c01-")
    rng = ctx.rng
    try:
        tiny_contigs_case(ctx, work)
        n = 60 if ctx.thorough else 10
        if ctx.search_mode:
            n *= 2
        for k in range(n):
            mode = k % 5
            spec = vcfgen.rich_file(
                rng, ploidies=(2,) if mode < 3 else (1, 2, 3), records_lack_gt=(mode == 2),
                shuffle_contig_blocks=(k % 2 == 1), ncontig=(rng.choice([2, 3, 5]) if k % 2 == 1 else None),
                nrec=rng.choice([1, 3, 8, 20, 60] + ([300] if ctx.thorough else [])))
            if not spec["records"]:
                continue
            kinds = KINDS if ctx.thorough else (KINDS[:3] if k % 2 == 0 else [rng.choice(KINDS), "vcf.gz+tbi0"])
            convert_and_compare(ctx, spec, work, f"f{k}", kinds)
            if k % 3 == 0 or not ctx.thorough:
                pipeline_model_case(ctx, spec, work, f"f{k}")
            for p in pathlib.Path(work).glob(f"f{k}_*"):
                if p.is_file():
                    p.unlink()
    finally:
        shutil.rmtree(work, ignore_errors=True)


def replay(ctx, payload):
    v = payload.get("violation") or (payload.get("disagreements") or [{}])[0]
    i = v["input"]
    work = common.scratch_dir("c01-")
    try:
        kinds = i.get("kinds") or [i.get("kind", "vcf.gz+tbi")]
        convert_and_compare(ctx, i["vcf_spec"], work, "replay", kinds, "replay")
    finally:
        shutil.rmtree(work, ignore_errors=True)
    print("replay:", f"{len(ctx.violations)} violation(s)" if ctx.violations else "statement holds")
