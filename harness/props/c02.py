"""C02 — every produced store is a self-consistent, openable VCF Zarr dataset."""
import pathlib
import shutil

import common
import convlib
import vcfgen

ID = "C02"
LEAN_MODULES = ["B2Z.Props.C02", "B2Z.Props.C01"]
THEOREMS = [
    "B2Z.Schema.C02_dims_coherent", "B2Z.Schema.C02_variant_sample_axes", "B2Z.Schema.C02_sentinels_representable",
    "B2Z.Schema.C02_dims_counterexample_unrepaired", "B2Z.Pipe.C02_chunk_grid_complete",
]
GEN_DEPENDS = ["Dtypes."]
ASSUMPTIONS = [
    "that xarray accepts a dimension-coherent store is xarray's behaviour: checked by opening every produced store",
    "zarr writes one file per chunk key and consolidate_metadata snapshots the metadata files present (observed on every store)",
    "the final directory tree (no wip, .zmetadata last) is covered by the protocol model of C06",
]
RULE = ("stores from generated rich VCFs biased towards Number=R/A/G fields absent or short on the widest record; chunk sizes "
        "1..n+1 x 1..s+1; dimension separators '/' and '.'; one-shot and distributed encode with 1..8 partitions; a store is "
        "non-trivial when it has a Number=R/A/G field or more than one chunk on some axis")
LEVEL_TEXT = ("Lean: over the schema-generation model, any two generated array specs that share a dimension name agree on its "
              "length (C02_dims_coherent; false for the unrepaired naming — proved counterexample), axis 0 is the record count / "
              "chunk-cap prefix and axis 1 of call_* arrays the sample count (C02_variant_sample_axes), every dtype the generator "
              "can emit represents -1 and -2 (C02_sentinels_representable, by decide over the regenerated dtype table), and the "
              "chunk keys written are exactly the grid (C02_chunk_grid_complete). Tied to the code by comparing mkschema output "
              "with the model and by a direct walk of every produced store: dimension lengths, xarray open, chunk files = grid, "
              "no stray file, .zmetadata = metadata on disk.")
LEVEL_NOTE = "Trusted: Lean kernel + standard axioms; zarr/xarray behaviour observed, not proved."
TECHNIQUE = "Lean 4 theorems over the schema-generation model + decide over the regenerated dtype table + structural walk of real stores"


def biased_spec(rng, thorough, ncontig=None):
    spec = vcfgen.rich_file(rng, nrec=rng.choice([2, 5, 12, 30]), nsamples=rng.choice([0, 1, 3, 5]), ploidies=(2,),
                            max_alt=rng.choice([2, 3, 4]), ncontig=ncontig)
    # bias: drop R/A/G valued fields from the records with the most alleles
    if spec["records"]:
        widest = max(len(r["alt"]) for r in spec["records"])
        for r in spec["records"]:
            if len(r["alt"]) == widest and rng.random() < 0.7:
                for f in spec["infos"]:
                    if f["number"] in "RAG" and rng.random() < 0.7:
                        r["info"].pop(f["id"], None)
                for f in spec["formats"]:
                    if f["number"] in "RAG" and f["id"] in (r.get("format") or []) and rng.random() < 0.7:
                        r["format"] = [k for k in r["format"] if k != f["id"]]
        # bias 2: a record that carries MORE values for a Number=R/A field than the file's widest record has alleles
        # (htslib accepts such records; the store must stay coherent)
        if rng.random() < 0.5:
            for f in spec["infos"]:
                if f["number"] in "RA" and f["type"] in ("Integer", "Float") and rng.random() < 0.7:
                    r = rng.choice(spec["records"])
                    extra = widest + 1 + rng.choice([1, 2])
                    r["info"][f["id"]] = ([rng.randrange(50) for _ in range(extra)] if f["type"] == "Integer"
                                          else [rng.choice(vcfgen.FLOAT_POOL[:6]) for _ in range(extra)])
            for f in spec["formats"]:
                if f["number"] in "RA" and f["type"] == "Integer" and rng.random() < 0.7:
                    cands = [r for r in spec["records"] if f["id"] in (r.get("format") or [])]
                    if cands:
                        r = rng.choice(cands)
                        for s_ in r["samples"]:
                            s_[f["id"]] = [rng.randrange(50) for _ in range(widest + 1 + rng.choice([1, 2]))]
    return spec


def check_one(ctx, spec, work, tag, force=None):
    import zarr
    rng = ctx.rng
    n, s = len(spec["records"]), len(spec["samples"])
    path = vcfgen.materialise(spec, pathlib.Path(work) / tag, rng.choice(["vcf.gz+tbi", "vcf.gz+csi", "bcf+csi"]))
    icf = pathlib.Path(work) / f"{tag}.icf"
    out = pathlib.Path(work) / f"{tag}.zarr"
    vcs = rng.choice([1, 2, max(1, n // 2), n, n + 1, None])
    scs = rng.choice([1, 2, max(1, s), s + 1, None])
    sep = rng.choice([None, "/", "."])
    parts = rng.choice([None, 1, 3, 8])
    if force:
        vcs, scs, sep = force["vcs"], force["scs"], force["sep"]
    # a chunk cap, binding or not (cap * chunk size may exceed the number of records)
    cap = rng.choice([None, None, 1, 2, 3, n + 2, 100]) if vcs is not None else None
    n_out = n if cap is None else min(n, cap * vcs)
    inp = {"vcf_spec": spec, "variants_chunk_size": vcs, "samples_chunk_size": scs, "dimension_separator": sep,
           "encode_partitions": parts, "max_variant_chunks": cap}
    ctx.count("cap_none" if cap is None else ("cap_binding" if cap * vcs < n else "cap_not_binding"))
    has_rag = any(f["number"] in "RAG" for f in spec["infos"] + spec["formats"])
    ctx.case((tag, repr(spec["records"])[:2000], vcs, scs, sep, parts, cap), has_rag or (vcs or 10**4) < n)
    ctx.count(f"sep_{sep}")
    ctx.count("distributed" if parts else "oneshot")
    try:
        convlib.explode(icf, [path])
        if parts is None:
            from bio2zarr import vcf2zarr
            shutil.rmtree(out, ignore_errors=True)
            vcf2zarr.encode(icf, out, variants_chunk_size=vcs, samples_chunk_size=scs, dimension_separator=sep, worker_processes=0,
                            max_variant_chunks=cap)
        else:
            convlib.encode(icf, out, partitions=parts, order=rng, variants_chunk_size=vcs, samples_chunk_size=scs,
                           dimension_separator=sep, max_variant_chunks=cap)
    except Exception as e:  # noqa: BLE001
        ctx.violate(f"conversion failed: {type(e).__name__}: {str(e)[:200]}", inp, "store", repr(e)[:200])
        return
    for what, detail in convlib.structure_problems(out):
        ctx.violate(f"store not self-consistent: {what}: {str(detail)[:300]}", inp, "consistent", detail, problem=what)
    op = convlib.open_problems(out)
    if op:
        ctx.violate(f"store does not open as a dataset: {op}", inp, "opens", op, problem="open")
    root = zarr.open(str(out), mode="r")
    for name, a in root.arrays():
        dims = a.attrs.get("_ARRAY_DIMENSIONS", [])
        if dims and dims[0] == "variants" and a.shape[0] != n_out:
            ctx.violate(f"{name}: variants axis {a.shape[0]} != {n_out} records" + (f" (chunk cap {cap} x {vcs})" if cap else ""),
                        inp, n_out, a.shape[0])
        if len(dims) > 1 and dims[1] == "samples" and a.shape[1] != s:
            ctx.violate(f"{name}: samples axis {a.shape[1]} != {s} samples", inp, s, a.shape[1])
    ctx.sample({"records": n, "samples": s, "chunks": [vcs, scs], "separator": sep, "partitions": parts,
                "arrays": len(list(root.array_keys()))}, limit=4)
    ctx.traces += 1
    shutil.rmtree(out, ignore_errors=True)
    shutil.rmtree(icf, ignore_errors=True)


def partial_schema_cases(ctx, work):
    """a user schema that keeps only part of an array group (e.g. drops call_genotype but keeps its mask): the conversion may
    refuse, but whatever it publishes as a finished store must be self-consistent"""
    import io
    import json
    from bio2zarr import vcf2zarr
    rng = ctx.rng
    for _try in range(10):
        spec = vcfgen.rich_file(rng, nrec=rng.choice([5, 9]), nsamples=3, ploidies=(2,))
        if len(spec["records"]) >= 3:
            break
    else:
        return
    path = vcfgen.materialise(spec, pathlib.Path(work) / "ps", "vcf.gz+tbi")
    icf = pathlib.Path(work) / "ps.icf"
    convlib.explode(icf, [path])
    buf = io.StringIO()
    vcf2zarr.mkschema(icf, buf, variants_chunk_size=2, samples_chunk_size=2)
    schema = json.loads(buf.getvalue())
    groups = [["call_genotype"], ["call_genotype_mask"], ["call_genotype_phased"], ["call_genotype", "call_genotype_phased"],
              ["variant_id"], ["variant_id_mask"], ["variant_position"], ["variant_contig", "variant_length"]]
    for k, drop in enumerate(groups if ctx.thorough else [groups[0]] + rng.sample(groups[1:], 3)):
        ed = dict(schema, fields=[f for f in schema["fields"] if f["name"] not in drop])
        sp = pathlib.Path(work) / f"ps{k}.json"
        sp.write_text(json.dumps(ed))
        out = pathlib.Path(work) / f"ps{k}.zarr"
        shutil.rmtree(out, ignore_errors=True)
        inp = {"vcf_spec": spec, "arrays_removed_from_schema": drop}
        ctx.case(("partial schema", tuple(drop)), True)
        for mode in ("oneshot", "distributed"):
            shutil.rmtree(out, ignore_errors=True)
            try:
                if mode == "oneshot":
                    vcf2zarr.encode(icf, out, schema_path=sp, worker_processes=0)
                else:
                    s_ = vcf2zarr.encode_init(icf, out, target_num_partitions=2, schema_path=sp)
                    for j in range(s_.num_partitions):
                        vcf2zarr.encode_partition(out, j)
                    vcf2zarr.encode_finalise(out)
                ctx.count("partial_schema_accepted")
            except Exception:  # noqa: BLE001
                ctx.count("partial_schema_refused")
            if (out / ".zmetadata").exists():
                for what, detail in convlib.structure_problems(out):
                    ctx.violate(f"schema without {drop} ({mode}): the finished store is not self-consistent: {what}: {str(detail)[:200]}",
                                inp, "refused, or a consistent store", detail, problem=what)
        shutil.rmtree(out, ignore_errors=True)
    shutil.rmtree(icf, ignore_errors=True)


def undeletable_leftover_case(ctx, work):
    """the work directory cannot be removed completely at finalise (a file a straggling process still holds open on NFS, a
    foreign-owned leftover): finalise may fail, but it must not declare a store finished that still contains `wip/`"""
    import errno
    import os
    from bio2zarr import vcf2zarr
    rng = ctx.rng
    spec = vcfgen.rich_file(rng, nrec=6, nsamples=2, ploidies=(2,))
    if len(spec["records"]) < 2:
        return
    path = vcfgen.materialise(spec, pathlib.Path(work) / "ul", "vcf.gz+tbi")
    icf, out = pathlib.Path(work) / "ul.icf", pathlib.Path(work) / "ul.zarr"
    convlib.explode(icf, [path])
    shutil.rmtree(out, ignore_errors=True)
    s_ = vcf2zarr.encode_init(icf, out, target_num_partitions=2, variants_chunk_size=2)
    for j in range(s_.num_partitions):
        vcf2zarr.encode_partition(out, j)
    busy = out / "wip" / "partitions" / "p0" / ".nfs00000000deadbeef00000001"
    busy.write_text("held open elsewhere")
    real_unlink = os.unlink

    def unlink(p, *a, **k):
        if os.path.basename(os.fspath(p)).startswith(".nfs"):
            raise OSError(errno.EBUSY, "Device or resource busy", os.fspath(p))
        return real_unlink(p, *a, **k)
    os.unlink = unlink
    ctx.case(("undeletable leftover",), True)
    ctx.count("undeletable_leftover_cases")
    try:
        try:
            vcf2zarr.encode_finalise(out)
            finished = True
        except Exception:  # noqa: BLE001
            finished = False
    finally:
        os.unlink = real_unlink
    if finished and (out / "wip").exists():
        left = sorted(str(p.relative_to(out)) for p in (out / "wip").rglob("*"))[:4]
        ctx.violate(f"encode_finalise reported success but the store still contains the work directory: {left}", {"vcf_spec": spec},
                    "error, or a store without wip/", left)
    shutil.rmtree(out, ignore_errors=True)
    shutil.rmtree(icf, ignore_errors=True)


def run(ctx):
    work = common.scratch_dir("c02-")
    try:
        n = 60 if ctx.thorough else 12
        if ctx.search_mode:
            n *= 2
        for k in range(n):
            spec = biased_spec(ctx.rng, ctx.thorough)
            if spec["records"]:
                check_one(ctx, spec, work, f"s{k}")
        # many chunks along BOTH axes (multi-digit chunk indexes at every position of the key), both separators
        for sep in ("/", "."):
            spec = vcfgen.rich_file(ctx.rng, nrec=13, nsamples=12, ploidies=(2,), max_alt=2)
            if len(spec["records"]) >= 11:
                check_one(ctx, spec, work, f"many{'dot' if sep == '.' else 'slash'}", force={"vcs": 1, "scs": 1, "sep": sep})
                ctx.count("many_chunks_cases")
        partial_schema_cases(ctx, work)
        undeletable_leftover_case(ctx, work)
        schema_correspondence(ctx, work)
    finally:
        shutil.rmtree(work, ignore_errors=True)


def schema_correspondence(ctx, work):
    """mkschema output vs the Lean schema model for the same field summaries"""
    if not ctx.driver_ok:
        return
    import io
    import json
    from bio2zarr import vcf2zarr
    for k in range(20 if ctx.thorough else 6):
        spec = biased_spec(ctx.rng, ctx.thorough, ncontig=ctx.rng.choice([129, 300, 40000]) if k == 0 else None)
        if not spec["records"]:
            continue
        path = vcfgen.materialise(spec, pathlib.Path(work) / f"m{k}", "vcf.gz+tbi")
        icf = pathlib.Path(work) / f"m{k}.icf"
        convlib.explode(icf, [path])
        buf = io.StringIO()
        vcs, scs = ctx.rng.choice([None, 3, 1000]), ctx.rng.choice([None, 2, 50])
        vcf2zarr.mkschema(icf, buf, variants_chunk_size=vcs, samples_chunk_size=scs)
        real = json.loads(buf.getvalue())
        meta = json.loads((icf / "metadata.json").read_text())
        fields = []
        for f in meta["fields"]:
            s = f["summary"]
            fields.append({"category": f["category"], "name": f["name"], "number": f["vcf_number"], "type": f["vcf_type"],
                           "max_number": s["max_number"],
                           "min": None if isinstance(s["min_value"], float) else s["min_value"],
                           "max": None if isinstance(s["max_value"], float) else s["max_value"]})
        q = {"op": "schema.generate", "fields": fields, "num_records": meta["num_records"], "num_samples": len(meta["samples"]),
             "num_contigs": len(meta["contigs"]), "num_filters": len(meta["filters"]),
             "variants_chunk_size": vcs or 10000, "samples_chunk_size": scs or 1000}
        m = ctx.driver.ask(q)
        got = [{"name": f["name"], "dtype": f["dtype"], "shape": f["shape"], "chunks": f["chunks"], "dimensions": f["dimensions"]}
               for f in real["fields"]]
        ctx.case(("schema", k, repr(fields)[:1000]), True)
        ctx.count("schema_correspondence")
        if m != got:
            bad = next((a for a, b in zip(m, got) if a != b), None) if isinstance(m, list) else m
            ctx.disagree("mkschema differs from Model.Schema.generate", {"vcf_spec": spec, "fields": fields}, bad,
                         next((b for a, b in zip(m, got) if a != b), got[:2]) if isinstance(m, list) else got[:2])
        shutil.rmtree(icf, ignore_errors=True)


def replay(ctx, payload):
    v = payload.get("violation") or (payload.get("disagreements") or [{}])[0]
    work = common.scratch_dir("c02-")
    try:
        check_one(ctx, v["input"]["vcf_spec"], work, "replay")
    finally:
        shutil.rmtree(work, ignore_errors=True)
    print("replay:", f"{len(ctx.violations)} violation(s) (chunk/partition choices are redrawn from VERIF_SEED)" if ctx.violations else "statement holds")
