"""C06 — distributed encode is crash-safe: never falsely finished, reruns recover."""
import json
import os
import pathlib
import re
import shutil

import common
import fstrace
import protolib
import vcfgen
import vczspec
import epmodel

ID = "C06"
LEAN_MODULES = ["B2Z.Props.C06"]
THEOREMS = [
    "B2Z.EP.C06_never_falsely_finished", "B2Z.EP.C06_finalise_refuses_unencoded", "B2Z.EP.C06_partition_rerun_restores",
    "B2Z.EP.C06_recovery", "B2Z.EP.C06_finalise_rerun_completes_or_errors", "B2Z.EP.C06_unrepaired_swap_counterexample",
]
ASSUMPTIONS = [
    "single file-system operations are atomic (rename of a file or directory, mkdir, unlink); zarr writes a chunk via temp file + os.replace; a kill leaves a prefix of the command's mutations; no power-loss model",
    "Cfg.WF: a partition task touches only its private objects and a complete run leaves all of them whole; rmtree only removes; chunk entries of different partitions are disjoint (C11) — each clause is evaluated on the traced real runs",
    "histories follow the protocol order (no partition command after a finalise command was issued)",
]
RULE = ("small generated inputs encoded with 2..3 partitions and several variant chunks; sampled (thorough: all) kill points of "
        "init, a partition, a partition rerun over an existing p<j>, and finalise; random protocol-ordered histories with up to 3 "
        "kills; each executed for real (forked child killed before the k-th mutation); non-trivial = history with a kill")
LEVEL_TEXT = ("Lean: over the object-level encode protocol model, for every protocol-ordered history with any number of kills: "
              "consolidated metadata present implies every array is final with every chunk entry of every partition "
              "(C06_never_falsely_finished); finalise refuses while a partition is unencoded; a complete partition rerun puts a "
              "whole p<j> in place whatever was left behind (C06_partition_rerun_restores); encoding all partitions in any order and "
              "finalising yields a finished complete store (C06_recovery); a finalise rerun errors or completes — never a third "
              "outcome; the unrepaired F4 swap is a proved counterexample. Tied to the code by real kill histories: object-level "
              "tree state and outcome vs the model, and a direct oracle (.zmetadata => arrays equal the reference; recovered tree == "
              "reference tree; finalise rerun identical-or-error).")
LEVEL_NOTE = "Trusted: Lean kernel + standard axioms; POSIX single-operation atomicity; kill = mutation prefix; Cfg.WF clauses checked on traces."
TECHNIQUE = "Lean 4 invariant proof over the encode protocol state machine (all legal histories, all kill points) + real killed runs with state/outcome correspondence"


class Setup:
    def __init__(self, ctx, work, tag):
        from bio2zarr import vcf2zarr
        self.v = vcf2zarr
        rng = ctx.rng
        self.work = pathlib.Path(work)
        # setup 0 (the only one of the quick tier): samples (3-D arrays) and the default nested chunk layout
        spec = vcfgen.simple_file(rng, nrec=rng.choice([5, 7, 9]), ncontig=1, samples=2 if tag == 0 else rng.choice([0, 2]),
                                  unused_contigs=False, span=3000)
        self.spec = spec
        vcf = vcfgen.materialise(spec, self.work / f"in{tag}", "vcf.gz+tbi")
        self.icf = self.work / f"icf{tag}"
        vcf2zarr.explode(self.icf, [vcf], worker_processes=0)
        self.out = self.work / f"z{tag}"
        self.vcs = rng.choice([2, 3])
        self.target = rng.choice([2, 3])
        self.sep = None if tag == 0 else rng.choice([None, "."])
        shutil.rmtree(self.out, ignore_errors=True)
        self.traces = {}
        ev, exc = fstrace.traced(self.out, self.fn(("init",)))
        assert exc is None, exc
        self.traces["init"] = ev
        meta = json.loads((self.out / "wip" / "metadata.json").read_text())
        self.nparts = len(meta["partitions"])
        self.arrays = [f["name"] for f in meta["schema"]["fields"]]
        for j in range(self.nparts):
            ev, exc = fstrace.traced(self.out, self.fn(("partition", j)))
            assert exc is None, exc
            self.traces[("partition", j)] = ev
        self.after_parts = protolib.snapshot(self.out)
        ev, exc = fstrace.traced(self.out, self.fn(("finalise",)))
        assert exc is None, exc
        self.traces["finalise"] = ev
        self.reference = protolib.snapshot(self.out)
        self.ref_store = vczspec.read_store(self.out)
        # model correspondence tables
        self.cl = epmodel.Classifier(self.arrays, self.traces["init"], self.reference)
        self.comp = epmodel.Completeness(self.cl)
        self.comp.learn(self.after_parts)
        self.comp.learn(self.reference)
        ents = []
        for j in range(self.nparts):
            row = []
            for a in self.arrays:
                ids = sorted({int(self.cl.obj(p).split(":")[3]) for p in self.after_parts
                              if self.cl.obj(p).startswith(f"pent:{j}:{self.arrays.index(a)}:")})
                row.append(ids)
            ents.append(row)
        self.base_cfg = {"n_parts": self.nparts, "n_arrays": len(self.arrays), "ents": ents + [[[] for _ in self.arrays]]}

    def fn(self, cmd):
        v = self.v
        if cmd[0] == "init":
            return lambda: v.encode_init(self.icf, self.out, target_num_partitions=self.target, variants_chunk_size=self.vcs,
                                         samples_chunk_size=1, dimension_separator=self.sep)
        if cmd[0] == "partition":
            return lambda: v.encode_partition(self.out, cmd[1])
        return lambda: v.encode_finalise(self.out)


def order_free(muts):
    """the removal of a stale partition directory (`rmtree(stale_p<j>)`) touches its objects in directory-scan order, which
    changes once some entries are gone: a leftover from a killed attempt and the freshly renamed-aside directory are emptied
    in different orders within one command, while the model has one order parameter per partition (the theorems hold for
    every order).  Runs of consecutive mutations on stale objects are therefore compared by their net effect per object."""
    out, run = [], {}

    def flush():
        # per stale object only the value the run leaves it with (a multi-file object passes through `torn`; a leftover that
        # is already torn needs one event less)
        out.extend(sorted((["set", o, v] for o, v in run.items()), key=repr))
        run.clear()
    for m in muts:
        if m[0] == "set" and str(m[1]).split(":")[0] in ("smeta", "sent"):
            run[m[1]] = m[2]
            continue
        flush()
        out.append(list(m))
    flush()
    return out


def oracle_step(ctx, su, history, idx, res):
    """the statement, directly on the real tree after step idx"""
    inp = {"vcf_spec": su.spec, "variants_chunk_size": su.vcs, "partitions": su.nparts, "separator": su.sep,
           "history": [[list(c), k] for c, k in history[: idx + 1]]}
    if (su.out / ".zmetadata").exists():
        try:
            got = vczspec.read_store(su.out)
            diffs = vczspec.compare_store(su.ref_store[0], got[0], check_dims=True, ignore=())
        except Exception as e:  # noqa: BLE001
            diffs = [("store", f"unreadable: {type(e).__name__}: {str(e)[:100]}", "readable", "error")]
        if diffs:
            name, what, e, g = diffs[0]
            ctx.violate(f"after {inp['history']} the store carries .zmetadata but array {name} is not fully/correctly populated ({what})",
                        inp, str(e)[:100], str(g)[:100])
            return False
        snap = protolib.snapshot(su.out)
        if snap != su.reference:
            bad = sorted(k for k in set(snap) | set(su.reference) if snap.get(k) != su.reference.get(k))[:5]
            ctx.violate(f"after {inp['history']} the finished store differs from an uninterrupted run in {bad}", inp, "identical tree", bad)
            return False
    cmd, kill = history[idx]
    if cmd[0] == "finalise" and res == "completed":
        # must not have been accepted while a partition was never completed
        done = set()
        for (c, k), r in zip(history[:idx], su.results):
            if c[0] == "partition" and r == "completed":
                done.add(c[1])
            if c[0] == "partition" and r == "killed":
                pass
        # (completion of p_j survives later killed reruns only through the swap; the tree check above is the real judge)
        if not (su.out / ".zmetadata").exists():
            ctx.violate(f"finalise completed without consolidated metadata after {inp['history']}", inp, ".zmetadata", "absent")
    return True


def probe(su, cmd):
    """full event sequence of `cmd` from the current state (run in a fork, tree restored afterwards)"""
    import pickle
    tmp = su.work / "probe_copy"
    shutil.rmtree(tmp, ignore_errors=True)
    if su.out.exists():
        shutil.copytree(su.out, tmp, symlinks=True)
    r, w = os.pipe()
    pid = os.fork()
    if pid == 0:
        os.close(r)
        ev, exc = fstrace.traced(su.out, su.fn(cmd))
        os.write(w, pickle.dumps(ev))
        os._exit(0)
    os.close(w)
    data = b""
    while True:
        c = os.read(r, 65536)
        if not c:
            break
        data += c
    os.close(r)
    os.waitpid(pid, 0)
    shutil.rmtree(su.out, ignore_errors=True)
    if tmp.exists():
        shutil.copytree(tmp, su.out, symlinks=True)
        shutil.rmtree(tmp, ignore_errors=True)
    return pickle.loads(data) if data else []


def model_step_view(prog):
    out = []
    for st in prog:
        if st[0] == "move":
            out.append(["move", st[1][0][0], st[1][0][1]])
        else:
            out.append(st)
    return out


def run_history(ctx, su, history, label):
    shutil.rmtree(su.out, ignore_errors=True)
    su.results = []
    any_kill = any(k is not None for _, k in history)
    ctx.case((label, repr(history), su.nparts, su.vcs), any_kill)
    ok = True
    mstate = {}
    diverged = not ctx.driver_ok
    legal_so_far = True
    for idx, (cmd, kill) in enumerate(history):
        inp = {"vcf_spec": su.spec, "variants_chunk_size": su.vcs, "separator": su.sep,
               "history": [[list(c), k] for c, k in history[: idx + 1]]}
        if not diverged:
            evs = probe(su, cmd)
            muts, before = epmodel.translate(evs, su.cl)
            cfg = epmodel.step_cfg(su.base_cfg, muts, cmd, su.cl)
        res = fstrace.run_killed(su.out, su.fn(cmd), kill)
        su.results.append(res)
        ctx.count("kill" if res == "killed" else ("raised" if res.startswith("raised") else "completed"))
        if not diverged:
            fuel = None
            if res == "killed":
                fuel = before[kill] if kill < len(before) else len(muts)
            q = {"op": "ep.step", **cfg, "state": mstate, "cmd": cmd[0]}
            if cmd[0] == "partition":
                q["j"] = cmd[1]
            if fuel is not None:
                q["kill"] = fuel
            m = ctx.driver.ask(q)
            m_out = "raised" if m["error"] else ("killed" if fuel is not None and fuel < m["total_muts"] else "completed")
            r_out = "raised" if res.startswith("raised") else res
            real_state = su.comp.states(protolib.snapshot(su.out))
            if m_out != r_out:
                ctx.disagree(f"outcome of step {idx} ({cmd}, kill={kill}) differs from the model: real {res}, model {m_out}", inp, m_out, res)
                diverged = True
            elif real_state != m["state"]:
                diff = {k: (m["state"].get(k), real_state.get(k)) for k in sorted(set(m["state"]) | set(real_state))
                        if m["state"].get(k) != real_state.get(k)}
                ctx.disagree(f"object states after step {idx} ({cmd}, kill={kill}) differ from the model (model, real)", inp,
                             dict(list(diff.items())[:8]), "…")
                diverged = True
            elif res == "completed" and order_free(model_step_view(m["prog"])) != order_free(muts):
                mp = model_step_view(m["prog"])
                k = next((i for i, (a, b) in enumerate(zip(mp, muts)) if a != b), min(len(mp), len(muts)))
                ctx.disagree(f"mutation sequence of {cmd} differs from the model program at position {k}", inp, mp[k:k + 3], muts[k:k + 3])
                diverged = True
            mstate = m["state"]
            ctx.count("model_steps")
        ok = oracle_step(ctx, su, history, idx, res) and ok
        ctx.traces += 1
    return ok


def recovery(ctx, su, history, label):
    """after a history without finalise: rerun every partition in random order, finalise; tree must equal the reference"""
    if not (su.out / "wip" / "metadata.json").exists() or (su.out / ".zmetadata").exists():
        return
    if any(c[0] == "finalise" for c, _ in history):
        return
    try:
        json.loads((su.out / "wip" / "metadata.json").read_text())
    except Exception:  # noqa: BLE001
        return
    order = list(range(su.nparts)) + [ctx.rng.randrange(su.nparts)]
    ctx.rng.shuffle(order)
    inp = {"vcf_spec": su.spec, "history": [[list(c), k] for c, k in history], "recovery_order": order,
           "variants_chunk_size": su.vcs, "separator": su.sep}
    try:
        for j in order:
            su.fn(("partition", j))()
        su.fn(("finalise",))()
    except Exception as e:  # noqa: BLE001
        ctx.violate(f"recovery after {inp['history']} failed: {type(e).__name__}: {str(e)[:150]}", inp, "recovers", repr(e)[:150])
        return
    snap = protolib.snapshot(su.out)
    ctx.count("recovery_checked")
    if snap != su.reference:
        bad = sorted(k for k in set(snap) | set(su.reference) if snap.get(k) != su.reference.get(k))[:6]
        ctx.violate(f"store recovered after {inp['history']} differs from an uninterrupted run in {bad}", inp, "identical tree", bad)


def run(ctx):
    work = common.scratch_dir("c06-")
    rng = ctx.rng
    try:
        for si in range(3 if ctx.thorough else 1):
            su = Setup(ctx, work, si)
            n_init, n_fin = len(su.traces["init"]), len(su.traces["finalise"])
            n_p = [len(su.traces[("partition", j)]) for j in range(su.nparts)]
            P = lambda j: ("partition", j)  # noqa: E731
            allp = [(P(j), None) for j in range(su.nparts)]
            hists = []
            j0 = rng.randrange(su.nparts)
            def pick(n, k):  # noqa: E306
                return range(n + 1) if ctx.thorough else sorted(set(rng.sample(range(n + 1), min(k, n + 1))) | {1, n // 2})
            for k in sorted(set(pick(n_init, 5)) | set(range(max(0, n_init - 8), n_init + 1))):
                hists.append(("kill init", [(("init",), k)] + allp + [(("finalise",), None)]))
            # aimed: right before a chunk's temporary file is renamed into place (the temp file is left behind), for arrays of
            # every nesting depth (1-D chunks sit directly in the array directory, 2-D/3-D ones in sub-directories)
            ev0 = su.traces[P(j0)]
            renames = [i for i, e in enumerate(ev0) if e[0] == "rename" and epmodel.TMP.search(e[1])]
            by_depth = {}
            for i in renames:
                by_depth.setdefault(ev0[i][1].count("/"), []).append(i)
            aimed = {rng.choice(v) for v in by_depth.values()} | ({renames[0], renames[-1]} if renames else set())
            if ctx.thorough:
                aimed = set(renames)
            ctx.count("kill_partition_before_chunk_rename", len(aimed))
            for k in sorted(set(pick(n_p[j0], 12)) | aimed):
                hists.append(("kill partition", [(("init",), None)] + [p for p in allp if p[0] != P(j0)] + [(P(j0), k)]))
            # rerun of an already encoded partition, killed (the swap of p<j>): then finalise must not produce a bad store
            # probe the rerun's own event sequence (it deletes / swaps the existing p<j>) to aim at the swap window
            shutil.rmtree(su.out, ignore_errors=True)
            su.fn(("init",))()
            for j in range(su.nparts):
                su.fn(P(j))()
            rerun_ev, _ = fstrace.traced(su.out, su.fn(P(j0)))
            swap = [i for i, e in enumerate(rerun_ev) if f"partitions/p{j0}" in e[1] or (len(e) > 2 and f"partitions/p{j0}" in e[2])
                    or f"stale_p{j0}" in e[1]]
            lo = swap[0] if swap else len(rerun_ev)
            pts = set(pick(len(rerun_ev), 8)) | {lo, lo + 1, lo + 2, lo + 3, lo + 4, len(rerun_ev) - 1, len(rerun_ev)}
            if swap:
                pts |= set(rng.sample(range(lo, len(rerun_ev) + 1), min(6, len(rerun_ev) + 1 - lo)))
            if ctx.thorough:
                pts = set(range(len(rerun_ev) + 1))
            for k in sorted(pts):
                hists.append(("kill partition rerun", [(("init",), None)] + allp + [(P(j0), k), (("finalise",), None)]))
            # the end of finalise (region index, consolidation) densely: that is where "finished" is decided
            for k in sorted(set(pick(n_fin, 8)) | set(range(max(0, n_fin - 14), n_fin + 1))):
                hists.append(("kill finalise", [(("init",), None)] + allp + [(("finalise",), k), (("finalise",), None)]))
            hists.append(("unencoded", [(("init",), None)] + allp[:-1] + [(("finalise",), None)]))
            for _ in range(40 if ctx.thorough else 8):
                h = [(("init",), rng.choice([None, None, None, rng.randrange(n_init + 1)]))]
                for _s in range(rng.randrange(1, 6)):
                    j = rng.randrange(su.nparts)
                    h.append((P(j), rng.choice([None, None, rng.randrange(2 * n_p[j])])))
                if rng.random() < 0.7:
                    h += [p for p in allp if rng.random() < 0.8]
                    for _f in range(rng.randrange(1, 3)):
                        h.append((("finalise",), rng.choice([None, rng.randrange(n_fin + 1)])))
                hists.append(("random", h))
            for label, h in hists:
                nv = len(ctx.violations)
                run_history(ctx, su, h, label)
                ctx.count(label.replace(" ", "_"))
                if len(ctx.violations) == nv:      # (also when the model correspondence broke: the statement is checked directly)
                    recovery(ctx, su, h, label)
            ctx.sample({"partitions": su.nparts, "arrays": len(su.arrays), "events": {"init": n_init, "partition": n_p, "finalise": n_fin},
                        "example_history": [[list(c), k] for c, k in hists[len(hists) // 2][1]]}, limit=3)
            shutil.rmtree(su.out, ignore_errors=True)
    finally:
        shutil.rmtree(work, ignore_errors=True)


def replay(ctx, payload):
    v = payload.get("violation") or (payload.get("disagreements") or [{}])[0]
    print("replay of a kill history needs the same generated input: rerun `./check C06` with VERIF_SEED =", payload.get("seed"))
    print("history:", v.get("input", {}).get("history"))
