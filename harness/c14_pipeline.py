"""one pipeline command with an injected worker failure; prints a JSON verdict (C14)"""
import json
import os
import pathlib
import sys
import time


def main():
    what, workers, src, out = sys.argv[1], int(sys.argv[2]), sys.argv[3], pathlib.Path(sys.argv[4])
    t0 = time.time()
    show = os.environ.get("B2Z_VERIF_SHOW_PROGRESS") == "1"
    res = {"raised": None}
    try:
        if what == "convert":
            from bio2zarr import vcf2zarr
            vcf2zarr.convert([src], out, worker_processes=workers, variants_chunk_size=2, show_progress=show)
        elif what == "explode":
            from bio2zarr import vcf2zarr
            vcf2zarr.explode(out, [src], worker_processes=workers, column_chunk_size=0.0001, show_progress=show)
        elif what == "encode":
            from bio2zarr import vcf2zarr
            vcf2zarr.encode(src, out, worker_processes=workers, variants_chunk_size=2, show_progress=show)
        elif what == "plink":
            from bio2zarr import plink
            plink.convert(src, out, worker_processes=workers, variants_chunk_size=2, show_progress=show)
    except BaseException as e:  # noqa: BLE001
        res["raised"] = type(e).__name__
        res["message"] = str(e)[:200]
    res["elapsed"] = round(time.time() - t0, 2)
    res["finished_marker"] = (out / "metadata.json").exists() if what == "explode" else (out / ".zmetadata").exists()
    res["output_exists"] = out.exists()
    print("RESULT " + json.dumps(res))


if __name__ == "__main__":
    main()
