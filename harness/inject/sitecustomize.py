"""Fault injection into bio2zarr worker processes (only when B2Z_VERIF_INJECT is set).

B2Z_VERIF_INJECT = JSON {"target": "explode"|"encode"|"plink", "index": j, "mode": "raise"|"die"}
The partition / slice with the given index fails inside whichever process runs it.
"""
import functools
import json
import os

_spec = os.environ.get("B2Z_VERIF_INJECT")
if _spec:
    try:
        _spec = json.loads(_spec)

        def _fail():
            if _spec["mode"] == "die":
                os._exit(77)
            if _spec["mode"] == "die_locked":
                # killed inside core.update_progress: the lock of the shared progress counter is never released
                from bio2zarr import core as _core
                if _core._progress_counter is not None:
                    _core._progress_counter.get_lock().acquire()
                os._exit(78)
            if _spec["mode"] == "oserror":
                import errno
                raise OSError(errno.ENOSPC, "No space left on device (injected)")
            raise KeyError(f"injected failure in {_spec['target']} task {_spec['index']}")

        if _spec["target"] == "explode":
            from bio2zarr.vcf2zarr import icf as _icf
            _orig = _icf.IntermediateColumnarFormatWriter.process_partition

            @functools.wraps(_orig)
            def _pp(self, partition_index, _orig=_orig):
                if partition_index == _spec["index"] % self.num_partitions:
                    _fail()
                return _orig(self, partition_index)
            _icf.IntermediateColumnarFormatWriter.process_partition = _pp
        elif _spec["target"] == "scan":
            from bio2zarr.vcf2zarr import icf as _icf
            _orig = _icf.scan_vcf

            @functools.wraps(_orig)
            def _sv(*a, _orig=_orig, **k):
                _fail()
            _icf.scan_vcf = _sv
        elif _spec["target"] == "encode":
            from bio2zarr.vcf2zarr import vcz as _vcz
            _orig = _vcz.VcfZarrWriter.encode_partition

            @functools.wraps(_orig)
            def _ep(self, partition_index, _orig=_orig):
                if partition_index == _spec["index"] % self.num_partitions:
                    _fail()
                return _orig(self, partition_index)
            _vcz.VcfZarrWriter.encode_partition = _ep
        elif _spec["target"] == "plink":
            from bio2zarr import plink as _plink
            _orig = _plink.encode_genotypes_slice
            _count = {"n": 0}

            @functools.wraps(_orig)
            def _es(bed_path, zarr_path, start, stop, _orig=_orig):
                # index = position of the slice: start // (stop - start) is not reliable; use env-provided starts
                if start == _spec["index"]:
                    _fail()
                return _orig(bed_path, zarr_path, start, stop)
            _plink.encode_genotypes_slice = _es
    except Exception as _e:  # noqa: BLE001
        import sys
        print(f"sitecustomize injection failed: {_e!r}", file=sys.stderr)
