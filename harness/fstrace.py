"""File-system mutation tracer based on sys.addaudithook, with kill injection for forked children.

Only mutations under `root` are recorded.  Events: ("mkdir", p), ("write", p) [open for writing /
creating / truncating], ("unlink", p), ("rmdir", p), ("rename", src, dst), ("truncate", p).
"""
import os
import sys

_state = {"root": None, "events": None, "kill_at": None, "installed": False, "on": False, "reads": None}


def _resolve(path, dir_fd=None):
    try:
        if isinstance(path, bytes):
            path = os.fsdecode(path)
        if isinstance(path, int):
            return os.readlink(f"/proc/self/fd/{path}")
        path = os.fspath(path)
        if dir_fd is not None and not os.path.isabs(path):
            base = os.readlink(f"/proc/self/fd/{dir_fd}")
            path = os.path.join(base, path)
        return os.path.abspath(path)
    except Exception:  # noqa: BLE001
        return None


def _record(ev):
    st = _state
    root = st["root"]
    paths = [p for p in ev[1:] if isinstance(p, str)]
    if not paths or not all(p == root or p.startswith(root + os.sep) for p in paths):
        return
    rel = tuple(os.path.relpath(p, root) for p in paths)
    if st["kill_at"] is not None and len(st["events"]) == st["kill_at"]:
        os._exit(137)                       # killed before this mutation
    st["events"].append((ev[0],) + rel)


def _hook(event, args):
    if not _state["on"]:
        return
    try:
        if event == "open":
            path, mode, flags = args
            if isinstance(flags, int) and flags & (os.O_WRONLY | os.O_RDWR | os.O_CREAT | os.O_TRUNC | os.O_APPEND):
                p = _resolve(path)
                if p and not os.path.isdir(p):
                    _record(("write", p))
            elif _state["reads"] is not None:
                p = _resolve(path)
                root = _state["root"]
                if p and (p == root or p.startswith(root + os.sep)):
                    _state["reads"].add(os.path.relpath(p, root))
        elif event in ("os.listdir", "os.scandir") and _state["reads"] is not None:
            p = _resolve(args[0]) if args and args[0] is not None else None
            root = _state["root"]
            if p and (p == root or p.startswith(root + os.sep)):
                _state["reads"].add(os.path.relpath(p, root) + "/")
        elif event == "os.mkdir":
            _record(("mkdir", _resolve(args[0], args[2] if len(args) > 2 and args[2] != -1 else None)))
        elif event == "os.rename":
            src, dst = args[0], args[1]
            sfd = args[2] if len(args) > 2 and args[2] != -1 else None
            dfd = args[3] if len(args) > 3 and args[3] != -1 else None
            _record(("rename", _resolve(src, sfd), _resolve(dst, dfd)))
        elif event == "os.remove":
            _record(("unlink", _resolve(args[0], args[1] if len(args) > 1 and args[1] != -1 else None)))
        elif event == "os.rmdir":
            _record(("rmdir", _resolve(args[0], args[1] if len(args) > 1 and args[1] != -1 else None)))
        elif event == "os.truncate":
            _record(("truncate", _resolve(args[0])))
    except SystemExit:
        raise
    except Exception:  # noqa: BLE001
        pass


def start(root, kill_at=None, reads=False):
    if not _state["installed"]:
        sys.addaudithook(_hook)
        _state["installed"] = True
    _state.update(root=os.path.abspath(str(root)), events=[], kill_at=kill_at, on=True, reads=set() if reads else None)


def reads_seen():
    return set(_state["reads"] or ())


def stop():
    _state["on"] = False
    ev = _state["events"]
    _state["events"] = None
    return ev


def traced(root, fn, *a, **kw):
    """run fn in-process, return (events, exception or None)"""
    start(root)
    exc = None
    try:
        fn(*a, **kw)
    except BaseException as e:  # noqa: BLE001
        exc = e
    return stop(), exc


def run_killed(root, fn, kill_at, *a, **kw):
    """run fn in a forked child that is killed (os._exit) before mutation number `kill_at`.
    Returns ("killed" | "completed" | "raised:<Type>")."""
    r, w = os.pipe()
    pid = os.fork()
    if pid == 0:
        os.close(r)
        code = 0
        try:
            start(root, kill_at=kill_at)
            try:
                fn(*a, **kw)
                os.write(w, b"completed")
            except BaseException as e:  # noqa: BLE001
                os.write(w, ("raised:" + type(e).__name__).encode())
        finally:
            os._exit(code)
    os.close(w)
    data = b""
    while True:
        chunk = os.read(r, 4096)
        if not chunk:
            break
        data += chunk
    os.close(r)
    _, status = os.waitpid(pid, 0)
    if os.WIFEXITED(status) and os.WEXITSTATUS(status) == 137:
        return "killed"
    return data.decode() or "killed"
