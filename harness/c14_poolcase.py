"""one ParallelWorkManager scenario in a fresh interpreter (C14): prints RESULT {"raised": type name | null, "key": ...}.
Used for faults that wedge process-wide state (a lock lost with a killed worker), which must not leak into the check."""
import json
import pathlib
import sys


def main():
    outcomes, workers, body, marker = json.loads(sys.argv[1]), int(sys.argv[2]), sys.argv[3] == "1", sys.argv[4]
    show = len(sys.argv) > 5 and sys.argv[5] == "1"          # progress bar on (the command line's default)
    import c14_tasks
    from bio2zarr import core
    res = {"raised": None, "arg": None}
    try:
        cfg = core.ProgressConfig(total=len(outcomes), units="tasks", title="case", show=show)
        with core.ParallelWorkManager(workers, cfg) as pwm:
            for i, o in enumerate(outcomes):
                if o == "killidle":
                    # every task submitted so far has finished; one idle worker is killed from outside (OOM killer, operator);
                    # the producer then goes on submitting
                    import os
                    import signal
                    import time
                    import concurrent.futures as cf
                    cf.wait(list(pwm.futures))
                    procs = list(getattr(pwm.executor, "_processes", {}).values())
                    if procs:
                        os.kill(procs[0].pid, signal.SIGKILL)
                        time.sleep(0.5)
                    continue
                kind = o if o in ("ok", "die", "dielock", "sysexit", "kbint") else "raise"
                pwm.submit(c14_tasks.task, kind, o if kind == "raise" else i, marker, 0.02)
            if body:
                list(pwm.results_as_completed())
    except BaseException as e:  # noqa: BLE001
        res["raised"] = type(e).__name__
        res["arg"] = e.args[0] if e.args and isinstance(e.args[0], int) else None
    res["expected_done"] = [i for i, o in enumerate(outcomes) if o == "ok"]
    res["done"] = sorted(int(p.name.split("_")[1]) for p in pathlib.Path(marker).iterdir())
    print("RESULT " + json.dumps(res), flush=True)


if __name__ == "__main__":
    main()
