"""Correspondence machinery for the encode protocol model (Model/EncodeProto.lean): classification of
real paths into model objects, object states of a real tree, translation of a traced event
sequence into model mutations / per-step configuration."""
import re

TMP = re.compile(r"\.[0-9a-f]{32}\.partial$")
PART = re.compile(r"^wip/partitions/(wip_p|stale_p|p)(\d+)(?:/(.*))?$")
KIND = {"wip_p": "w", "p": "p", "stale_p": "s"}


class Classifier:
    def __init__(self, arrays, init_events, reference_snapshot):
        self.arrays = list(arrays)                       # schema order = finalise order
        self.entries = {a: [] for a in self.arrays}      # entry names per array (ids = positions)
        for path in sorted(reference_snapshot):
            parts = path.split("/")
            if parts[0] in self.entries and len(parts) >= 2 and not parts[1].startswith("."):
                if parts[1] not in self.entries[parts[0]]:
                    self.entries[parts[0]].append(parts[1])
        self.keep, self.wips, self.ridx = [], [], []
        for ev in init_events:
            p = TMP.sub("", ev[-1])
            if p == "." or p.startswith("wip/arrays/") and p.split("/")[2] in self.arrays:
                continue
            if p in ("wip", "wip/arrays", "wip/partitions", "wip/arrays/.zgroup"):
                if p not in self.wips:
                    self.wips.append(p)
            elif p != "wip/metadata.json" and not p.startswith("wip/"):
                top = p.split("/")[0]
                if top not in self.keep:
                    self.keep.append(top)

    def ent_id(self, a, name):
        if name not in self.entries[a]:
            self.entries[a].append(name)
        return self.entries[a].index(name)

    def obj(self, path):
        path = TMP.sub("", path)
        if path == ".":
            return "root"
        if path == ".zmetadata":
            return "zmeta"
        if path == "wip/metadata.json":
            return "plan"
        if path in self.wips:
            return f"wips:{self.wips.index(path)}"
        m = PART.match(path)
        if m:
            k, j, rest = KIND[m.group(1)], int(m.group(2)), m.group(3)
            if not rest:
                return f"{k}dir:{j}"
            parts = rest.split("/")
            if parts[0] not in self.arrays:
                return f"unclassified:{path}"
            a = self.arrays.index(parts[0])
            if len(parts) == 1 or parts[1].startswith("."):
                return f"{k}meta:{j}:{a}"
            return f"{k}ent:{j}:{a}:{self.ent_id(parts[0], parts[1])}"
        if path.startswith("wip/arrays/"):
            parts = path.split("/")[2:]
            if parts[0] in self.arrays:
                a = self.arrays.index(parts[0])
                if len(parts) == 1 or parts[1].startswith("."):
                    return f"tmpl:{a}"
                return f"aent:{a}:{self.ent_id(parts[0], parts[1])}"
        parts = path.split("/")
        if parts[0] in self.arrays:
            a = self.arrays.index(parts[0])
            if len(parts) == 1 or parts[1].startswith("."):
                return f"farr:{a}"
            return f"fent:{a}:{self.ent_id(parts[0], parts[1])}"
        if parts[0] == "region_index":
            return "ridx:0"
        if parts[0] in self.keep:
            return f"keep:{self.keep.index(parts[0])}"
        if path in (".zgroup", ".zattrs"):
            if path not in self.keep:
                self.keep.append(path)
            return f"keep:{self.keep.index(path)}"
        return f"unclassified:{path}"


def canonical_key(obj, path):
    """path of a file relative to its object, independent of where the object currently lives"""
    path = path
    m = PART.match(path)
    if m:
        return m.group(3) or ""
    if path.startswith("wip/arrays/"):
        return path[len("wip/arrays/"):]
    return path


class Completeness:
    """reference contents of every object: {object-kind-independent id: {relative file: hash}}"""

    def __init__(self, cl):
        self.cl = cl
        self.full = {}      # canonical object id -> {canonical path: hash}

    @staticmethod
    def canon_id(obj):
        # the same logical thing at different places shares its reference content
        k = obj.split(":")
        if k[0] in ("wmeta", "pmeta", "smeta"):
            return "tmplcopy:" + k[2]
        if k[0] == "tmpl" or k[0] == "farr":
            return "tmplcopy:" + k[1]
        if k[0] in ("went", "pent", "sent"):
            return f"entry:{k[2]}:{k[3]}"
        if k[0] in ("aent", "fent"):
            return f"entry:{k[1]}:{k[2]}"
        if k[0] in ("wdir", "pdir", "sdir"):
            return "partdir"
        return obj

    def learn(self, snapshot):
        for path, h in snapshot.items():
            if TMP.search(path):
                continue
            o = self.cl.obj(path)
            cid = self.canon_id(o)
            self.full.setdefault(cid, {})[canonical_key(o, path)] = h

    def states(self, snapshot):
        """object -> 'ok' | 'torn' for the objects present in a real tree"""
        present = {}
        tmp = set()
        for path, h in snapshot.items():
            o = self.cl.obj(path)
            if o == "zmeta" and TMP.search(path):
                continue          # consolidated metadata appears atomically: its temp file is not the marker
            if TMP.search(path):
                tmp.add(o)
                present.setdefault(o, {})
                continue
            present.setdefault(o, {})[canonical_key(o, path)] = h
        out = {}
        for o, files in present.items():
            ref = self.full.get(self.canon_id(o))
            if ref is None:
                out[o] = "ok" if files else "torn"
            else:
                out[o] = "ok" if files == ref and o not in tmp else "torn"
        return out


DIRMOVE = re.compile(r"^(wip/partitions/(wip_p|p)\d+|wip/arrays/[^/]+|wip/partitions/p\d+/[^/]+/[^/.][^/]*)$")


def is_dir_move(ev, cl):
    """rename that the model represents as one atomic move: a partition directory, an array directory moved out of
    wip, or a chunk entry moved from p<j>/<a>/ into wip/arrays/<a>/"""
    if ev[0] != "rename" or TMP.search(ev[1]):
        return False
    if not DIRMOVE.match(ev[1]):
        return False
    src = cl.obj(ev[1])
    return src.split(":")[0] in ("wdir", "pdir", "tmpl", "pent")


def translate(events, cl):
    """real event sequence -> (model mutations, before[]) where before[i] = number of model mutations
    performed before real event i (len = len(events)+1).  A multi-event object contributes a `torn`
    mutation at its first event and its final value at its last event inside one segment; segments
    end at directory moves."""
    n = len(events)
    kinds = []
    for ev in events:
        if ev[0] == "write" and TMP.search(ev[1]) and cl.obj(ev[1]) == "zmeta":
            kinds.append(("skip", None, None))
        elif is_dir_move(ev, cl):
            kinds.append(("move", cl.obj(ev[1]), cl.obj(ev[2])))
        else:
            target = ev[2] if ev[0] == "rename" else ev[1]
            final = "absent" if ev[0] in ("unlink", "rmdir") else "ok"
            kinds.append(("touch", cl.obj(target), final))
    # segment boundaries: a move of a partition directory or array directory changes identities
    muts, before = [], []
    i = 0
    while i < n:
        # find the next directory-level move (wdir/pdir/tmpl); entry moves are single mutations but do not end a segment
        j = i
        while j < n and not (kinds[j][0] == "move" and kinds[j][1].split(":")[0] in ("wdir", "pdir", "tmpl")):
            j += 1
        seg = range(i, j)
        first, last = {}, {}
        for k in seg:
            if kinds[k][0] == "touch":
                o = kinds[k][1]
                first.setdefault((o, kinds[k][2]), k)
                last[(o, kinds[k][2])] = k
        for k in seg:
            before.append(len(muts))
            if kinds[k][0] == "skip":
                continue
            if kinds[k][0] == "move":
                muts.append(["move", kinds[k][1], kinds[k][2]])
                continue
            o, fin = kinds[k][1], kinds[k][2]
            f, l = first[(o, fin)], last[(o, fin)]
            if f == l:
                if o == "plan" and fin == "ok":
                    muts.append(["set", o, "torn"])      # plain open/write/close of a single file
                muts.append(["set", o, fin])
            elif k == f:
                muts.append(["set", o, "torn"])
            elif k == l:
                muts.append(["set", o, fin])
        if j < n:
            before.append(len(muts))
            muts.append(["move", kinds[j][1], kinds[j][2]])
        i = j + 1
    before.append(len(muts))
    return muts, before


def pref(o):
    k = o.split(":")
    if k[0][1:] == "meta":
        return ["hdr", int(k[2])]
    return ["ent", int(k[2]), int(k[3])]


def step_cfg(base, muts, cmd, cl):
    """per-step configuration: the parameter sequences of the model program for this very run, read off the
    translated mutation list"""
    cfg = dict(base)
    nparts = base["n_parts"]
    per = lambda: [[] for _ in range(nparts + 1)]  # noqa: E731
    if cmd[0] == "init":
        seq = []
        for m in muts:
            if m[0] == "set" and m[1].split(":")[0] in ("keep", "wips", "tmpl"):
                k = m[1].split(":")
                seq.append([k[0], int(k[1]), m[2]])
        cfg["init_seq"] = seq
    elif cmd[0] == "partition":
        j = cmd[1]
        wseq, rm_work, rm_stale = per(), per(), per()
        stale_phases = [[]]
        for i, m in enumerate(muts):
            if m[0] == "move" and m[1] == f"pdir:{j}":
                stale_phases.append([])
            if m[0] != "set":
                continue
            k = m[1].split(":")
            if k[0] in ("wmeta", "went") and int(k[1]) == j:
                removal = m[2] == "absent" or (m[2] == "torn" and _next_touch(muts, i) == "absent")
                (rm_work if removal else wseq)[j].append(pref(m[1]) + [m[2]])
            if k[0] in ("smeta", "sent") and int(k[1]) == j:
                stale_phases[-1].append(pref(m[1]) + [m[2]])
        # left-over stale clean-up (before the swap) and the clean-up after the swap use one order in the model:
        # take the one after the swap when both happen
        rm_stale[j] = stale_phases[-1] if stale_phases[-1] else stale_phases[0]
        cfg.update(wseq=wseq, rm_work=rm_work, rm_stale=rm_stale)
    else:
        mv = [[[] for _ in cl.arrays] for _ in range(nparts + 1)]
        rm_wip, ridx = [], []
        for m in muts:
            if m[0] == "move" and m[1].startswith("pent"):
                k = m[1].split(":")
                mv[int(k[1])][int(k[2])].append(int(k[3]))
            elif m[0] == "set" and m[1].startswith("ridx"):
                ridx.append([int(m[1].split(":")[1]), m[2]])
            elif m[0] == "set" and m[1] != "zmeta":
                rm_wip.append([m[1], m[2]])
        # entries not present are simply not listed by the real directory scan: keep the order of those moved and append the rest
        for j in range(nparts):
            for a in range(len(cl.arrays)):
                for e in base["ents"][j][a]:
                    if e not in mv[j][a]:
                        mv[j][a].append(e)
        cfg.update(mv_order=mv, rm_wip=rm_wip, ridx_seq=ridx)
    return cfg


def _next_touch(muts, i):
    for n in muts[i + 1:]:
        if n[0] == "set" and n[1] == muts[i][1]:
            return n[2]
        if n[0] == "move":
            return None
    return None
