"""Machinery shared by the crash-safety properties (C05, C06, C07, C18): reference runs, path
classification, real histories with kill points (fork + os._exit before the k-th mutation),
tree snapshots."""
import hashlib
import os
import pathlib
import re
import shutil

import fstrace


def snapshot(root):
    """relative path -> 'dir' | sha1 of the file bytes"""
    root = pathlib.Path(root)
    out = {}
    if not root.exists():
        return out
    out["."] = "dir"
    for dirpath, dirs, files in os.walk(root):
        for d in dirs:
            out[os.path.relpath(os.path.join(dirpath, d), root)] = "dir"
        for f in files:
            p = os.path.join(dirpath, f)
            try:
                out[os.path.relpath(p, root)] = hashlib.sha1(open(p, "rb").read()).hexdigest()
            except FileNotFoundError:
                pass
    return out


def effective_events(events, pre_tree):
    """replay a trace on a virtual tree; yields (event, effective) where a mkdir whose parent is
    missing (the first attempt of mkdir(parents=True)) is not effective"""
    tree = set(pre_tree)
    out = []
    for ev in events:
        kind = ev[0]
        eff = True
        if kind == "mkdir":
            parent = os.path.dirname(ev[1]) or "."
            if ev[1] != "." and parent not in tree:
                eff = False
            else:
                tree.add(ev[1])
        elif kind == "write":
            tree.add(ev[1])
        elif kind in ("unlink", "rmdir"):
            tree.discard(ev[1])
        elif kind == "rename":
            moved = [p for p in tree if p == ev[1] or p.startswith(ev[1] + "/")]
            for p in moved:
                tree.discard(p)
                tree.add(ev[2] + p[len(ev[1]):])
        out.append((ev, eff))
    return out


class Killer:
    """run a command for real with an optional kill before real event number `kill_at`;
    `torn` additionally truncates the file opened by the last event to a strict prefix"""

    def __init__(self, root):
        self.root = pathlib.Path(root)

    def run(self, fn, kill_at=None, torn_prefix=None):
        if kill_at is None:
            res = fstrace.run_killed(self.root, fn, None)
        else:
            res = fstrace.run_killed(self.root, fn, kill_at)
        return res


def truncate_to_prefix(path, reference_bytes, rng):
    """simulate a write killed between open and close: a strict prefix of the final content"""
    n = len(reference_bytes)
    k = rng.choice([0, 0, 1, n // 2, max(0, n - 1)]) if n else 0
    k = min(k, max(0, n - 1))
    with open(path, "wb") as f:
        f.write(reference_bytes[:k])
    return k
