"""picklable tasks for the real process pool (C14)"""
import os
import pathlib
import time


def task(kind, ident, marker_dir, delay):
    time.sleep(delay)
    if kind == "die":
        os._exit(33)
    if kind == "dielock":
        # the process is killed inside core.update_progress, i.e. while it holds the lock of the shared progress counter
        from bio2zarr import core
        core._progress_counter.get_lock().acquire()
        os._exit(34)
    if kind == "sysexit":
        import sys
        sys.exit(101)
    if kind == "kbint":
        raise KeyboardInterrupt(102)
    if kind == "raise":
        raise KeyError(ident)
    pathlib.Path(marker_dir, f"done_{ident}").write_text("x")
    return ident
