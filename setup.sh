#!/bin/sh
# Build the framework offline: regenerate Gen/*.lean from /repo, build every theorem and the native driver.
set -e
HERE="$(cd "$(dirname "$0")" && pwd)"
cd "$HERE"
PYTHONPATH="${B2Z_REPO:-/repo}:$HERE/harness" /venv/bin/python harness/extract.py "${B2Z_REPO:-/repo}" "$HERE/lean/B2Z/Gen"
cd lean
lake build B2Z b2zdriver
